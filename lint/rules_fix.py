"""FIX — fixed-point structure (C02, C09; FIX3 also C08)."""
import re
from mir import (peel, op_place, op_local, const_int, describe_origin, fn_uses, natural_loop, rv_operands)
from rules_tab import value_depends_on
import tables as T

RSTATE = re.compile(r"(resolver|asm)::ResolutionState$")


def resolver_arms(run):
    """functions called from asm::resolver::resolve_once that take &mut ItemDefs and return Result<ResolutionState,()>"""
    prog = run.prog
    ro = prog.fn("asm::resolver::resolve_once")
    out = []
    if ro is None:
        return ro, out
    for bi, t in ro.calls():
        r = t.get("resolved")
        g = prog.fn(r) if r else None
        if g is None:
            continue
        if "ResolutionState" in g.ret and g.id not in out:
            out.append(g.id)
    return ro, out


def rstate_blocks(f, variant):
    out = []
    for bi, si, st in f.stmts():
        if st["k"] == "assign" and st["rv"]["k"] == "agg" and st["rv"].get("agg") == "adt" and RSTATE.search(st["rv"]["adt"]) and st["rv"]["variant"] == variant:
            out.append(bi)
    return out


def reach_from(f, b):
    seen = set()
    work = [b]
    while work:
        x = work.pop()
        if x in seen:
            continue
        seen.add(x)
        work.extend(f.succs(x))
    return seen


def stmt_pos(f, st):
    for bi, si, s in f.stmts():
        if s is st:
            return (bi, si)
    return None


def before(f, a, b):
    """position a=(bb,idx) strictly happens-before b on every path (same block earlier, or a's block strictly dominates b's)"""
    if a[0] == b[0]:
        return a[1] < b[1]
    return f.dominates(a[0], b[0])


def record_locals(f):
    """locals holding `&mut Record` obtained from DefList::get_mut"""
    out = {}
    for bi, t in f.calls():
        c = t.get("callee") or ""
        if re.search(r"DefList::<.*>::get_mut$|DefList::<T>::get_mut$", c) and not t["dest"]["p"]:
            out[t["dest"]["l"]] = (bi, t)
    return out


def field_stores_of(f, rec):
    out = []
    for bi, si, st in f.stmts():
        if st["k"] == "assign" and st["place"]["l"] == rec and len(st["place"]["p"]) == 2 and st["place"]["p"][0] == "deref" and isinstance(st["place"]["p"][1], dict) and "f" in st["place"]["p"][1]:
            out.append((st["place"]["p"][1]["name"], (bi, si), st))
    # `mem::replace(&mut rec.field, new)`: a store at the position of the call (its answer is the previous value)
    for bi, t, fld, ty in _replaced_fields(f, rec):
        out.append((fld, (bi, 10 ** 6), {"k": "assign", "rv": {"k": "use", "op": t["args"][1]}, "place": None, "span": t["span"], "field_ty": ty}))
    return out


def _replaced_fields(f, rec):
    out = []
    for bi, t in f.calls():
        if (t.get("callee") or "") not in ("std::mem::replace", "core::mem::replace") or len(t["args"]) != 2:
            continue
        l = op_local(t["args"][0])
        if l is None:
            continue
        cur = f.copy_root(l)
        for _ in range(4):
            # through reborrows `&mut *tmp`
            ds = f.full_defs(cur)
            if len(ds) == 1 and ds[0][0] == "stmt" and ds[0][3]["rv"]["k"] == "ref" and ds[0][3]["rv"]["place"]["p"] == ["deref"] \
                    and ds[0][3]["rv"]["place"]["l"] != rec:
                cur = f.copy_root(ds[0][3]["rv"]["place"]["l"])
            else:
                break
        for d in f.full_defs(cur):
            if d[0] == "stmt" and d[3]["rv"]["k"] == "ref":
                pl = d[3]["rv"]["place"]
                if pl["l"] == rec and len(pl["p"]) == 2 and pl["p"][0] == "deref" and isinstance(pl["p"][1], dict) and "name" in pl["p"][1]:
                    out.append((bi, t, pl["p"][1]["name"], pl["p"][1].get("ty")))
    return out


def _strip_wrappers(ty):
    ty = (ty or "").strip()
    while True:
        t2 = re.sub(r"^&(mut )?", "", ty).strip()
        m = re.match(r"^std::option::Option<(.*)>$", t2)
        if m:
            t2 = m.group(1).strip()
        if t2 == ty:
            return ty
        ty = t2


def field_loads_of(f, rec, field):
    """(position, dest_local, how) of loads of (*rec).field: plain copy, or clone(&(*rec).field)"""
    out = []
    for bi, si, st in f.stmts():
        if st["k"] != "assign" or st["place"]["p"]:
            continue
        rv = st["rv"]
        pl = None
        if rv["k"] == "use":
            pl = op_place(rv["op"])
        elif rv["k"] == "ref":
            pl = rv["place"]
        if pl is not None and pl["l"] == rec and len(pl["p"]) >= 2 and pl["p"][0] == "deref" and isinstance(pl["p"][1], dict) and pl["p"][1].get("name") == field and len(pl["p"]) == 2:
            dl = st["place"]["l"]
            how = rv["k"]
            if how == "ref":
                # `clone(&rec.field)`: an owned copy taken at the position of the call
                us = fn_uses(f, dl)
                if len(us) == 1 and us[0][1] == "term" and us[0][2]["k"] == "call" and (us[0][2].get("callee") or "") == "std::clone::Clone::clone" and not us[0][2]["dest"]["p"]:
                    out.append(((us[0][0], 10 ** 6), us[0][2]["dest"]["l"], "clone"))
                    continue
            out.append(((bi, si), dl, how))
    for bi, t, fld, ty in _replaced_fields(f, rec):
        if fld == field and not t["dest"]["p"]:
            # the previous value, taken just before the store of the same call
            out.append(((bi, 10 ** 6 - 1), t["dest"]["l"], "clone"))
    return out


def comparisons(f):
    """all ==/!= tests: (position, dest_local, kind 'eq'/'ne', [operands])"""
    out = []
    for bi, si, st in f.stmts():
        if st["k"] == "assign" and st["rv"]["k"] == "binop" and st["rv"]["op"] in ("Eq", "Ne") and not st["place"]["p"]:
            out.append(((bi, si), st["place"]["l"], st["rv"]["op"].lower(), [st["rv"]["l"], st["rv"]["r"]], st["span"]))
    IDENT = re.compile(r"(BigInt|Value)::is_identical$")
    for bi, t in f.calls():
        c = t.get("callee") or ""
        if c in ("std::cmp::PartialEq::eq", "std::cmp::PartialEq::ne") and not t["dest"]["p"]:
            out.append(((bi, 10 ** 6), t["dest"]["l"], c.rsplit("::", 1)[-1], t["args"], t["span"]))
        elif IDENT.search(t.get("resolved") or c) and not t["dest"]["p"] and len(t["args"]) == 2:
            # value-and-size equality of the repo's own types
            out.append(((bi, 10 ** 6), t["dest"]["l"], "eq", t["args"], t["span"]))
        elif re.search(r"Option::<T>::(map_or|is_some_and)$", c) and not t["dest"]["p"] and t["args"]:
            # `new.map_or(false, |v| v.is_identical(&kept))`: equal exactly when present and equal to the captured value
            from mir import closure_of_origin
            o = f.origin_op(t["args"][-1])
            cid = closure_of_origin(o)
            g = f.prog.fn(cid) if cid else None
            if g is None or (c.endswith("map_or") and const_int(t["args"][1]) != 0):
                continue
            inner = [t2 for _, t2 in g.calls() if IDENT.search(t2.get("resolved") or t2.get("callee") or "") or (t2.get("callee") or "") == "std::cmp::PartialEq::eq"]
            if len(inner) != 1 or inner[0]["dest"]["l"] != 0:
                continue
            ag = peel(o)
            if ag and ag[0] == "agg" and len(ag[1]["ops"]) == 1:
                out.append(((bi, 10 ** 6), t["dest"]["l"], "eq", [t["args"][0], ag[1]["ops"][0]], t["span"]))
    return out


def switch_on_local(f, l):
    """switch blocks whose discriminant is (a copy of) local l -> list of (block, false_target, true_target)"""
    out = []
    for b in sorted(f.reachable()):
        t = f.blocks[b]["term"]
        if t["k"] != "switch":
            continue
        dl = op_local(t["discr"])
        if dl is None:
            continue
        if f.copy_root(dl) != l and dl != l:
            # `!x` : Not(x)
            o = f.origin_local(dl)
            if not (o[0] == "unop" and o[1]["op"] == "Not" and op_local(o[1]["x"]) is not None and f.copy_root(op_local(o[1]["x"])) == l):
                continue
            neg = True
        else:
            neg = False
        ft = [tg for v, tg in t["targets"] if v == "0"]
        if not ft:
            continue
        false_t, true_t = ft[0], t["otherwise"]
        if neg:
            false_t, true_t = true_t, false_t
        out.append((b, false_t, true_t))
    return out


def dominated_by_edge(f, target, src_block, b):
    """is block b reachable only through edge src_block->target?  (target dominates b and target has src_block as its only pred,
    or more generally target dominates b)"""
    return f.dominates(target, b)


def fix2(run):
    R = "FIX2"
    prog = run.prog
    ro, arms = resolver_arms(run)
    if ro is None:
        run.violation(R, R + "|anchor", "-", "mechanism not found: asm::resolver::resolve_once")
        return
    spec = run.table("fix")
    stateless = {e["fn"]: e["reason"] for e in spec["stateless_resolvers"]}
    n = 0
    for fid in arms:
        f = prog.fn(fid)
        key = "%s|%s" % (R, fid)
        if fid in stateless:
            run.exception(R, key, f.loc(), "%s keeps no value between passes (%s)" % (fid, stateless[fid]))
            continue
        n += 1
        recs = record_locals(f)
        found = None
        why = "no record obtained through DefList::get_mut"
        for rec in recs:
            stores = field_stores_of(f, rec)
            fields = sorted(set(x[0] for x in stores if x[0] not in ("resolved",)))
            for fld in fields:
                st_pos = [p for (nm, p, st) in stores if nm == fld]
                stored_ops = [st["rv"] for (nm, p, st) in stores if nm == fld]
                loads = field_loads_of(f, rec, fld)
                prevs = []
                for (lp, dl, how) in loads:
                    if all(before(f, lp, sp) for sp in st_pos):
                        prevs.append((lp, dl, how))
                for (cp, cdest, ckind, ops, span) in comparisons(f):
                    # one operand carries the old value: a prev load, or a direct field ref used before every store
                    old_side = None
                    for i, o in enumerate(ops):
                        ol = op_local(o)
                        if ol is None:
                            continue
                        for (lp, dl, how) in prevs:
                            if ol == dl or value_depends_on(f, o, dl):
                                # a `ref` prev is only the old value if the comparison itself precedes the store
                                if how == "ref" and not all(before(f, cp, sp) for sp in st_pos):
                                    continue
                                old_side = i
                    if old_side is None:
                        continue
                    other = ops[1 - old_side]
                    # the other side must not be the old value again
                    same = False
                    for (lp, dl, how) in prevs:
                        ol = op_local(other)
                        if ol is not None and (ol == dl or (value_depends_on(f, other, dl) and how != "ref")):
                            same = True
                    if same:
                        why = "the stability comparison on `%s` compares the previous value with itself" % fld
                        continue
                    sws = switch_on_local(f, cdest)
                    if not sws:
                        why = "the result of the comparison on `%s` is never branched on" % fld
                        continue
                    found = (rec, fld, cp, cdest, ckind, sws, span)
                    break
                if found:
                    break
            if found:
                break
        if not found:
            run.violation(R, key, f.loc(), "%s: no comparison of the newly computed value with the value kept from the previous pass was found (%s): a changed value would not force another pass" % (fid, why))
            continue
        rec, fld, cp, cdest, ckind, sws, span = found
        # the comparison is over the whole kept value (its declared type), not a projection of it
        fty = None
        for (nm, p_, st_) in field_stores_of(f, rec):
            if nm == fld:
                fty = st_.get("field_ty") or (st_["place"]["p"][1].get("ty") if st_.get("place") else None) or fty
        for (cp2, cd2, ck2, ops2, sp2) in comparisons(f):
            if cp2 == cp:
                tys = [_strip_wrappers(f.local_ty(op_local(o))) if op_local(o) is not None else None for o in ops2]
                whole = fty is not None and all(t_ == _strip_wrappers(fty) for t_ in tys)
                run.check(whole, R, key + "|whole-value", f.loc(span),
                          "%s: the stability comparison is over the whole `%s` (%s)" % (fid, fld, fty),
                          "%s: the stability comparison on `%s` (declared %s) compares %s: a change the projection does not show (a boolean flipping, a string or size changing) would not force another pass" % (fid, fld, fty, tys))
        # BigInt's `==` (and Value's, through it) ignores the declared size: a kept value whose size reaches the output (an encoding, a
        # constant) has to be compared with the value-and-size equality, or a size that keeps changing is taken for stable
        if re.search(r"(^|::)(BigInt|Value)$", _strip_wrappers(fty or "")):
            tcall = f.blocks[cp[0]]["term"]
            aware = False
            if tcall["k"] == "call":
                cc = tcall.get("resolved") or tcall.get("callee") or ""
                if re.search(r"(BigInt|Value)::is_identical$", cc):
                    aware = True
                elif re.search(r"Option::<T>::(map_or|is_some_and)$", cc):
                    from mir import closure_of_origin
                    g_ = f.prog.fn(closure_of_origin(f.origin_op(tcall["args"][-1])) or "")
                    aware = g_ is not None and any(re.search(r"(BigInt|Value)::is_identical$", t2.get("resolved") or t2.get("callee") or "") for _, t2 in g_.calls())
            blind_ok = spec.get("size_blind_ok", {})
            if aware:
                run.ok(R, key + "|size-aware", f.loc(span), "%s: the stability comparison on `%s` sees a change of the declared size" % (fid, fld))
            elif fid in blind_ok:
                run.exception(R, key + "|size-aware", f.loc(span), "%s compares `%s` with `==` (size-blind): %s" % (fid, fld, blind_ok[fid]))
            else:
                run.violation(R, key + "|size-aware", f.loc(span), "%s compares the kept `%s` with `==`, which ignores the declared size of integers: a value whose size changes from pass to pass while its number stays the same is taken for stable, and the output then depends on the iteration budget" % (fid, fld))
        if run.debug_fix2 if hasattr(run, "debug_fix2") else False:
            from rules_sym import deep
            for (cp2, cd2, ck2, ops2, sp2) in comparisons(f):
                if cp2 == cp:
                    print("FIX2DBG", fid, fld, [deep(f, o, 4) for o in ops2], [f.local_ty(op_local(o)) if op_local(o) is not None else None for o in ops2])
        b, false_t, true_t = sws[0]
        eq_t, ne_t = (true_t, false_t) if ckind == "eq" else (false_t, true_t)
        res_blocks = rstate_blocks(f, "Resolved")
        unres_blocks = rstate_blocks(f, "Unresolved")
        ne_reach = reach_from(f, ne_t)
        bad_res = [x for x in res_blocks if x in ne_reach and not f.edge_dominates(b, eq_t, x)]
        has_unres = any(x in ne_reach for x in unres_blocks)
        run.check(not bad_res and has_unres, R, key + "|differs-unresolved", f.loc(span),
                  "%s: when `%s` differs from the previous pass the only outcomes are Unresolved or Err" % (fid, fld),
                  "%s: on the `differs` edge of the comparison on `%s` the function can still return Resolved (or never returns Unresolved): a stale guess would be accepted" % (fid, fld))
        # every plain Resolved is behind the equal edge, or is an audited shortcut
        for x in res_blocks:
            if f.edge_dominates(b, eq_t, x):
                continue
            ok, how = is_shortcut(run, f, x)
            run.check(ok, R, key + "|resolved-needs-stability", f.loc(f.blocks[x]["term"]["span"]),
                      "%s: a Resolved outside the stability test is %s" % (fid, how),
                      "%s can return Resolved without passing the `unchanged` edge of the comparison on `%s` (%s)" % (fid, fld, how))
    run.floor(R, "stateful resolvers", n, 7)


def single_candidate_flag(f, root):
    """is local `root` the flag `exactly one candidate encoding`: `<encodings>.map_or(false, |e| e.len() == 1)`?"""
    from rules_sym import deep
    from mir import closure_of_origin
    ds = f.full_defs(root)
    if len(ds) != 1 or ds[0][0] != "call":
        return False
    t = ds[0][2]
    if not re.search(r"Option::<T>::(map_or|is_some_and)$", t.get("callee") or ""):
        return False
    cid = closure_of_origin(f.origin_op(t["args"][-1]))
    g = f.prog.fn(cid) if cid else None
    if g is None:
        return False
    return deep(g, g.origin_local(0), 5) in ("(Vec::len(P2) Eq 1_usize)", "(slice::len(P2) Eq 1_usize)")


def edge_true_dominates(f, cond_desc_pred, block):
    """is `block` dominated by the TRUE edge of a switch whose discriminant satisfies cond_desc_pred(description)?"""
    for b in f.dominators().get(block, ()):
        t = f.blocks[b]["term"]
        if t["k"] != "switch" or b == block:
            continue
        dl = op_local(t["discr"])
        if dl is None:
            continue
        root = f.copy_root(dl)
        d = describe_origin(f, f.origin_local(root))
        if f.local_name(root):
            d += " var:" + f.local_name(root)
        if single_candidate_flag(f, root):
            d += " flag:single-candidate"
        neg = False
        o = f.origin_local(dl)
        if o[0] == "unop" and o[1]["op"] == "Not":
            neg = True
            d = describe_origin(f, f.origin_op(o[1]["x"]))
        if not cond_desc_pred(d):
            continue
        ft = [tg for v, tg in t["targets"] if v == "0"]
        if not ft:
            continue
        true_t = t["otherwise"] if not neg else ft[0]
        if f.edge_dominates(b, true_t, block):
            return True
    return False


def is_shortcut(run, f, block):
    """a Resolved return that does not depend on the stability test: must be the 'already resolved' early return
    or the statically-known shortcut"""
    if edge_true_dominates(f, lambda d: d.split(" var:")[0].endswith(".resolved"), block):
        return True, "the early return for an item already marked resolved"
    if edge_true_dominates(f, lambda d: d.split(" var:")[0].endswith(".optimize_statically_known"), block):
        return True, "the statically-known shortcut (checked by FIX3)"
    if edge_true_dominates(f, lambda d: "driver_symbol_defs" in d or d.startswith("call:std::iter::Iterator::find"), block):
        return True, "the command-line define override"
    return False, "not an audited shortcut"


def fix3(run):
    """`resolved = true` only under optimize_statically_known && <record>.*_statically_known (&& is_first_iteration)"""
    R = "FIX3"
    prog = run.prog
    spec = run.table("fix")
    n = 0
    listed = {(e["fn"], e.get("guard", "")): e for e in spec["resolved_stores"]}
    seen_keys = set()
    for f in prog.real_fns():
        for bi, si, st in f.stmts():
            if st["k"] != "assign" or not st["place"]["p"]:
                continue
            last = st["place"]["p"][-1]
            if not (isinstance(last, dict) and last.get("name") == "resolved"):
                continue
            if st["rv"]["k"] != "use" or const_int(st["rv"]["op"]) != 1:
                continue
            n += 1
            conds = []
            if edge_true_dominates(f, lambda d: d.split(" var:")[0].endswith(".optimize_statically_known"), bi):
                conds.append("optimize_statically_known")
            if edge_true_dominates(f, lambda d: d.split(" var:")[0].endswith("_statically_known") and not d.split(" var:")[0].endswith(".optimize_statically_known"), bi):
                conds.append("statically_known")
            if edge_true_dominates(f, lambda d: d.split(" var:")[0].endswith(".is_first_iteration"), bi):
                conds.append("is_first_iteration")
            if edge_true_dominates(f, lambda d: d.endswith(" flag:single-candidate"), bi):
                conds.append("has_single_match")
            key = "%s|%s|resolved=true" % (R, f.id)
            want = None
            for e in spec["resolved_stores"]:
                if e["fn"] == f.id:
                    if set(e["conds"]) <= set(conds) or (not e["conds"] and not conds):
                        want = e
            if want is None:
                cands = [e for e in spec["resolved_stores"] if e["fn"] == f.id]
                run.violation(R, key + "|" + "+".join(conds), f.loc(st["span"]),
                              "%s marks an item `resolved` under the conditions %s; audited stores of this function require %s: an item whose value is not statically known would be skipped in later passes" % (
                                  f.id, conds or "[none]", [e["conds"] for e in cands] or "no such store"))
            else:
                seen_keys.add((f.id, tuple(want["conds"])))
                if want["conds"]:
                    run.ok(R, key + "|" + "+".join(want["conds"]), f.loc(st["span"]), "%s: `resolved = true` only under %s" % (f.id, " && ".join(conds)))
                else:
                    run.exception(R, key + "|unconditional", f.loc(st["span"]), "%s: unconditional `resolved = true` (%s)" % (f.id, want["reason"]))
    # struct literals with resolved: true
    for f in prog.real_fns():
        for bi, si, st in f.stmts():
            if st["k"] == "assign" and st["rv"]["k"] == "agg" and st["rv"].get("agg") == "adt" and "resolved" in st["rv"].get("fields", []):
                idx = st["rv"]["fields"].index("resolved")
                c = const_int(st["rv"]["ops"][idx])
                if c == 1:
                    n += 1
                    e = [e for e in spec["resolved_literals"] if e["fn"] == f.id]
                    if e:
                        run.exception(R, "%s|%s|literal" % (R, f.id), f.loc(st["span"]), "%s creates a record with resolved: true (%s)" % (f.id, e[0]["reason"]))
                    else:
                        run.violation(R, "%s|%s|literal" % (R, f.id), f.loc(st["span"]), "%s creates a %s with `resolved: true`: it will never be (re)computed" % (f.id, st["rv"]["adt"]))
    run.floor(R, "`resolved = true` sites", n, 6)


def flag_param_index(prog, g, field, depth=0):
    """index (0-based) of the bool parameter of g that ends up in a field named `field` (directly, or through one callee
    that stores its own parameter there): how the passes' strictness flags are recognised without relying on their names"""
    from rules_tab import value_depends_on
    if g is None or depth > 2:
        return None
    bools = [i for i in range(1, g.arg_count + 1) if g.local_ty(i) == "bool"]
    hits = set()
    for bi, si, st in g.stmts():
        if st["k"] != "assign":
            continue
        targets = []
        pl = st["place"]
        fl = [pr["name"] for pr in pl["p"] if isinstance(pr, dict) and "f" in pr]
        if fl and fl[-1] == field and st["rv"]["k"] == "use":
            targets.append(st["rv"]["op"])
        rv = st["rv"]
        if rv["k"] == "agg" and rv.get("agg") == "adt" and field in (rv.get("fields") or []):
            targets.append(rv["ops"][rv["fields"].index(field)])
        for o in targets:
            for i in bools:
                if value_depends_on(g, o, i):
                    hits.add(i - 1)
            # `a && b` is lowered to a temporary assigned on the two edges of a switch on `a`: control dependence
            l = op_local(o)
            if l is not None:
                root = g.copy_root(l)
                for dd in g.full_defs(root):
                    for sb in g.dominators().get(dd[1], ()):
                        tt = g.blocks[sb]["term"]
                        if tt["k"] == "switch" and op_local(tt["discr"]) is not None:
                            r_ = g.copy_root(op_local(tt["discr"]))
                            if r_ in bools and any(g.edge_dominates(sb, e, dd[1]) for e in g.succs(sb)):
                                hits.add(r_ - 1)
    if len(hits) == 1:
        return sorted(hits)[0]
    if hits:
        return None
    for bi, t in g.calls():
        h = prog.fn(t.get("resolved") or "")
        if h is None or h.id == g.id:
            continue
        j = flag_param_index(prog, h, field, depth + 1)
        if j is not None and j < len(t["args"]):
            l = op_local(t["args"][j])
            if l is not None and 1 <= g.copy_root(l) <= g.arg_count and g.local_ty(g.copy_root(l)) == "bool":
                hits.add(g.copy_root(l) - 1)
    return sorted(hits)[0] if len(hits) == 1 else None


def can_guess_definition(run, R="FIX1"):
    """the rules treat `ctx.can_guess()` as the negation of the strict flag: its body must be exactly that (every guess is refused in
    the confirming pass, whatever else is true of the pass)"""
    cands = [g for g in run.prog.real_fns() if re.search(r"ResolverContext(::<.*>)?::can_guess$", g.id)]
    if len(cands) != 1:
        run.violation(R, R + "|can_guess|definition", "-", "mechanism not found: ResolverContext::can_guess (%d candidates)" % len(cands))
        return
    g = cands[0]
    reads, nots, other = [], [], []
    for bi, si, st in g.stmts():
        if st["k"] != "assign":
            continue
        rv = st["rv"]
        if rv["k"] == "use" and op_place(rv["op"]) is not None:
            pl = op_place(rv["op"])
            names = [p_.get("name") for p_ in pl["p"] if isinstance(p_, dict)]
            (reads if pl["l"] == 1 and names == ["is_last_iteration"] else other).append(st)
        elif rv["k"] == "unop" and rv["op"] == "Not":
            nots.append(st)
        else:
            other.append(st)
    branches = [b for b in g.reachable() if g.blocks[b]["term"]["k"] not in ("return", "goto")]
    ok = len(reads) == 1 and len(nots) == 1 and not other and not branches and nots[0]["place"]["l"] == 0 \
        and g.copy_root(op_local(nots[0]["rv"]["x"])) == g.copy_root(reads[0]["place"]["l"])
    run.check(ok, R, R + "|can_guess|definition", g.loc(), "ResolverContext::can_guess is exactly `!is_last_iteration`",
              "ResolverContext::can_guess is no longer the plain negation of is_last_iteration (%d read(s) of the flag, %d negation(s), %d other statement(s), %d branch(es)): a pass that must confirm could be allowed to guess" % (len(reads), len(nots), len(other), len(branches)))


def fix1(run):
    """every delivered result is dominated by a confirming last pass and its success test"""
    R = "FIX1"
    prog = run.prog
    spec = run.table("fix")
    can_guess_definition(run, R)
    for d in spec["drivers"]:
        f = prog.fn(d["fn"])
        if f is None:
            run.violation(R, "%s|anchor|%s" % (R, d["fn"]), "-", "mechanism not found: %s" % d["fn"])
            continue
        once = [(bi, t) for bi, t in f.calls() if (t.get("resolved") or "") == d["once"]]
        run.check(len(once) >= 2, R, "%s|%s|passes" % (R, f.id), f.loc(),
                  "%s calls %s at %d sites (loop pass + confirming pass)" % (f.id, d["once"], len(once)),
                  "%s calls %s at %d site(s); expected the loop pass and the separate confirming pass" % (f.id, d["once"], len(once)))
        g = prog.fn(d["once"])
        last_idx = flag_param_index(prog, g, "is_last_iteration")
        if last_idx is None:
            run.violation(R, "%s|%s|last-param" % (R, f.id), f.loc(), "mechanism not found: parameter is_last_iteration of %s" % d["once"])
            continue
        # delivered results
        oks = []
        for bi, si, st in f.stmts():
            if st["k"] == "assign" and st["place"]["l"] == 0 and not st["place"]["p"] and st["rv"]["k"] == "agg" and st["rv"].get("variant") == "Ok" and st["rv"]["adt"].endswith("Result"):
                payload = peel(f.origin_op(st["rv"]["ops"][0])) if st["rv"]["ops"] else None
                if payload and payload[0] == "agg" and payload[1].get("variant") == "Unknown":
                    continue  # Value::Unknown is "no result yet", only allowed while guessing (checked below)
                oks.append((bi, st))
        run.check(bool(oks), R, "%s|%s|has-result" % (R, f.id), f.loc(), "%s has %d result-delivering return(s)" % (f.id, len(oks)), "%s never delivers a result" % f.id)
        # `no value yet` (Unknown) is only answered after the confirming pass found the block unstable, and only while the
        # enclosing pass may guess
        if not d.get("returns_counter"):
            unk = []
            for bi, si, st in f.stmts():
                if st["k"] == "assign" and st["place"]["l"] == 0 and not st["place"]["p"] and st["rv"]["k"] == "agg" and st["rv"].get("variant") == "Ok" and st["rv"]["ops"]:
                    payload = peel(f.origin_op(st["rv"]["ops"][0]))
                    if payload and payload[0] == "agg" and payload[1].get("variant") == "Unknown":
                        unk.append((bi, st))
            confirm = [kb for kb, kt in once if const_int(kt["args"][last_idx]) == 1]
            for bi, st in unk:
                good = any(f.dominates(kb, bi) and kb != bi for kb in confirm) and edge_true_dominates(f, lambda dd: "can_guess" in dd, bi)
                run.check(good, R, "%s|%s|unknown-only-after-confirming" % (R, f.id), f.loc(st["span"]), "%s answers `no value yet` only after its confirming pass, while the enclosing pass may guess" % f.id,
                          "%s can answer `no value yet` without having run its passes to the confirming pass: a block that needs several passes over its own labels never delivers a value" % f.id)
        # a delivered *value* is the confirming pass's own value, not one kept from a guessing pass
        if not d.get("returns_counter"):
            for bi, st in oks:
                o = f.origin_op(st["rv"]["ops"][0]) if st["rv"]["ops"] else None
                base = o
                while base and base[0] in ("place", "ref", "cast"):
                    base = base[1]
                while base and base[0] == "call" and (base[1].get("callee") or "") in ("std::ops::Try::branch", "std::clone::Clone::clone") and base[1]["args"]:
                    base = f.origin_op(base[1]["args"][0])
                    while base and base[0] in ("place", "ref", "cast"):
                        base = base[1]
                good = bool(base) and base[0] == "call" and (base[1].get("resolved") or "") == d["once"] and const_int(base[1]["args"][last_idx]) == 1
                run.check(good, R, "%s|%s|value-of-confirming-pass" % (R, f.id), f.loc(st["span"]), "%s delivers the value computed by the confirming (no-guess) pass itself" % f.id,
                          "%s delivers a value that was not computed by the confirming pass (it is kept from an earlier, guessing pass): with a small budget the delivered bits can be built from stale label values, so the budget changes the output" % f.id)
        for bi, st in oks:
            good = False
            why = "no dominating %s call with is_last_iteration = true" % d["once"].rsplit("::", 1)[-1]
            for kb, kt in once:
                if not f.dominates(kb, bi):
                    continue
                a = kt["args"][last_idx]
                ci = const_int(a)
                last_ok = False
                if ci == 1:
                    last_ok = True
                elif ci is None:
                    al = op_local(a)
                    root = f.copy_root(al) if al is not None else None
                    if root is not None:
                        # the return must be behind the true edge of a test of that flag
                        for (sb, false_t, true_t) in switch_on_local(f, root):
                            if f.edge_dominates(sb, true_t, bi):
                                last_ok = True
                if not last_ok:
                    why = "the dominating pass is not known to be a last (no-guess) pass on this path"
                    continue
                # success test of that call's result dominates the return
                succ = success_edge(f, kt, d)
                if succ is None:
                    why = "the result of the pass is not tested for %s" % d["success"]
                    continue
                if any(f.edge_dominates(sb_, st_, bi) for sb_, st_ in succ):
                    good = True
                    break
                else:
                    why = "the return is not behind the success edge (%s) of the confirming pass" % d["success"]
            run.check(good, R, "%s|%s|confirmed" % (R, f.id), f.loc(st["span"]),
                      "%s: this result is delivered only after a last (no-guess) pass that reported %s" % (f.id, d["success"]),
                      "%s can deliver a result without a confirming no-guess pass (%s): a guess that was never re-checked could be emitted" % (f.id, why))


def success_edge(f, kt, d):
    """blocks entered exactly when the pass `kt` reported success"""
    out = []
    # payload of `?` on the call
    for b in sorted(f.reachable()):
        t = f.blocks[b]["term"]
        if t["k"] != "switch":
            continue
        dl = op_local(t["discr"])
        if dl is None:
            continue
        o = f.origin_local(dl)
        neg = False
        if o[0] == "unop" and o[1]["op"] == "Not":
            neg = True
            inner = op_local(o[1]["x"])
            o = f.origin_local(inner) if inner is not None else ("unknown",)
        if d["success"] == "Resolved":
            if o[0] != "discr" or not RSTATE.search(o[2]["adt"]):
                continue
            if not _payload_of(f, o[1], kt):
                continue
            vm = o[2].get("variants") or {}
            listed = {v: tg for v, tg in t["targets"]}
            for v, name in vm.items():
                if name == "Resolved":
                    out.append((b, listed.get(v, t["otherwise"])))
        else:
            # a bool field of the payload, success when false, e.g. `unstable`
            fld = d["success"].lstrip("!")
            if o[0] != "place" or not o[2] or not isinstance(o[2][-1], dict) or o[2][-1].get("name") != fld:
                continue
            if not _payload_of(f, ("place", o[1], o[2][:-1]) if len(o[2]) > 1 else o[1], kt):
                continue
            ft = [tg for v, tg in t["targets"] if v == "0"]
            if not ft:
                continue
            want_false = d["success"].startswith("!")
            is_false_edge, is_true_edge = ft[0], t["otherwise"]
            if neg:
                is_false_edge, is_true_edge = is_true_edge, is_false_edge
            out.append((b, is_false_edge if want_false else is_true_edge))
    return out or None


def _payload_of(f, o, kt):
    n = 0
    while o is not None and n < 12:
        n += 1
        if o[0] in ("ref", "cast"):
            o = o[1]
        elif o[0] == "place":
            o = o[1]
        elif o[0] == "call":
            t = o[1]
            if t is kt:
                return True
            if (t.get("callee") or "") == "std::ops::Try::branch" and t["args"]:
                o = f.origin_op(t["args"][0])
            else:
                return False
        elif o[0] == "multi":
            return any(d[0] == "call" and d[2] is kt for d in o[2]) and len(o[2]) == 1
        else:
            return False
    return False


def fix4(run):
    """the budget: counter, flags, who reads max_iterations, asserts only in a last pass"""
    R = "FIX4"
    prog = run.prog
    spec = run.table("fix")
    # the budget the outer driver is given is the option's value, unchanged
    from rules_sym import deep as _deep
    nb = 0
    for g in prog.real_fns():
        for bi, t in g.calls():
            if (t.get("resolved") or t.get("callee") or "") != "asm::resolver::resolve_iteratively":
                continue
            nb += 1
            us = [_deep(g, a, 6) for a, ty in zip(t["args"], t.get("arg_tys") or []) if ty == "usize"]
            okb = len(us) == 1 and re.fullmatch(r"(upvar:\w+|P\d+)(\.\w+)*\.max_iterations", us[0]) is not None
            run.check(okb, R, "%s|budget-passed|%s" % (R, g.raw.get("root") or g.id), g.loc(t["span"]), "the resolver is given `max_iterations` of the options, unchanged",
                      "%s hands the resolver the budget `%s`, not the option's max_iterations unchanged: the number of passes run (and reported) would not be bounded by what the user asked for" % (g.id, us))
    run.floor(R, "calls of the outer driver", nb, 1)
    for d in spec["drivers"]:
        f = prog.fn(d["fn"])
        if f is None:
            continue
        # counter: named iter_count; all assignments are `0` or `iter_count + 1` behind `iter_count < max`
        # the counter is the local compared with the budget (`counter < max_iterations`)
        cnt = set()
        for bi, si, st in f.stmts():
            if st["k"] == "assign" and st["rv"]["k"] == "binop" and st["rv"]["op"] == "Lt" and op_local(st["rv"]["l"]) is not None:
                if re.search(r"max_iterations$", describe_origin(f, f.origin_op(st["rv"]["r"]))):
                    cnt.add(f.copy_root(op_local(st["rv"]["l"])))
        cnt = sorted(cnt)
        ranged = None
        if not cnt:
            # `for counter in 1..=max_iterations`: bounded by construction
            from rules_sym import deep as _deep
            for l in range(f.arg_count + 1, len(f.locals)):
                ds = f.full_defs(l)
                if len(ds) == 1 and ds[0][0] == "stmt" and ds[0][3]["k"] == "assign" and ds[0][3]["rv"]["k"] == "use":
                    e = _deep(f, ds[0][3]["rv"]["op"], 5)
                    if re.fullmatch(r"Iterator::next\(RangeInclusive::new\(1_usize, [^()]*max_iterations\)\)@Some\.0", e) or re.fullmatch(r"Iterator::next\(RangeInclusive\{start: 1_usize, end: [^{}]*max_iterations[^{}]*\}\)@Some\.0", e):
                        ranged = f.copy_root(l) if ranged is None else min(ranged, f.copy_root(l))
            if ranged is not None:
                cnt = [ranged]
        if len(cnt) != 1:
            run.violation(R, "%s|%s|counter" % (R, f.id), f.loc(), "mechanism not found: loop counter `iter_count` in %s" % f.id)
            continue
        c = cnt[0]
        ok = True
        why = ""
        for dd in (f.full_defs(c) if ranged is None else []):
            st = dd[3] if dd[0] == "stmt" else None
            if st is None:
                ok = False
                why = "assigned from a call"
                continue
            rv = st["rv"]
            if rv["k"] == "use" and const_int(rv["op"]) == 0:
                continue
            o = f.origin_op(rv["op"]) if rv["k"] == "use" else None
            # `_8 = move (_14.0)` with _14 = AddWithOverflow(_8, 1)
            src = None
            if rv["k"] == "use":
                pl = op_place(rv["op"])
                if pl is not None and pl["p"]:
                    src = f.origin_local(pl["l"])
            if src and src[0] == "binop" and src[1]["op"] in ("AddWithOverflow", "Add") and op_local(src[1]["l"]) == c and const_int(src[1]["r"]) == 1:
                # behind the `<` test
                guard = False
                for b in f.dominators().get(dd[1], ()):
                    t = f.blocks[b]["term"]
                    if t["k"] == "switch" and op_local(t["discr"]) is not None:
                        oo = f.origin_local(op_local(t["discr"]))
                        if oo[0] == "binop" and oo[1]["op"] == "Lt" and op_local(oo[1]["l"]) is not None and f.copy_root(op_local(oo[1]["l"])) == c:
                            rdesc = describe_origin(f, f.origin_op(oo[1]["r"]))
                            if f.edge_dominates(b, t["otherwise"], dd[1]) and re.search(r"max_iterations$", rdesc):
                                guard = True
                if not guard:
                    ok = False
                    why = "an increment is not behind `iter_count < max_iterations`"
                continue
            ok = False
            why = "assigned something other than 0 / iter_count + 1"
        run.check(ok, R, "%s|%s|counter" % (R, f.id), f.loc(), "%s: iter_count starts at 0 and is only incremented by 1 behind `iter_count < max_iterations`" % f.id,
                  "%s: the pass counter is not bounded by the budget (%s)" % (f.id, why))
        # flags
        g_once = prog.fn(d["once"])
        for nm, want in (("is_first_iteration", ("Eq", 1)), ("is_last_iteration", ("Eq", "max"))):
            # the flag is what the loop pass hands to the pass function in the position of that flag
            ls = set()
            j = flag_param_index(prog, g_once, nm)
            if j is not None:
                for bi, t in f.calls():
                    if (t.get("resolved") or "") == d["once"] and j < len(t["args"]) and const_int(t["args"][j]) is None and op_local(t["args"][j]) is not None:
                        ls.add(f.copy_root(op_local(t["args"][j])))
            ls = sorted(ls)
            good = False
            if len(ls) == 1 and len(f.full_defs(ls[0])) == 1 and f.full_defs(ls[0])[0][0] == "stmt":
                rv = f.full_defs(ls[0])[0][3]["rv"]
                if rv["k"] == "binop" and rv["op"] == "Eq" and op_local(rv["l"]) is not None and f.copy_root(op_local(rv["l"])) == c:
                    if want[1] == 1:
                        good = const_int(rv["r"]) == 1
                    else:
                        dsc = describe_origin(f, f.origin_op(rv["r"]))
                        good = "max_iterations" in dsc
            run.check(good, R, "%s|%s|%s" % (R, f.id, nm), f.loc(),
                      "%s: %s = (iter_count == %s)" % (f.id, nm, "1" if want[1] == 1 else "max_iterations"),
                      "%s: flag %s is not derived as iter_count == %s" % (f.id, nm, "1" if want[1] == 1 else "max_iterations"))
        # returned pass count is the counter itself (main driver only)
        if d.get("returns_counter"):
            good = True
            n = 0
            for bi, si, st in f.stmts():
                if st["k"] == "assign" and st["place"]["l"] == 0 and st["rv"]["k"] == "agg" and st["rv"].get("variant") == "Ok":
                    n += 1
                    l = op_local(st["rv"]["ops"][0])
                    if l is None or f.copy_root(l) != c:
                        good = False
            run.check(good and n > 0, R, "%s|%s|returns-counter" % (R, f.id), f.loc(), "%s returns the pass counter itself (<= budget)" % f.id,
                      "%s returns something other than the pass counter: the reported number of passes can exceed the budget" % f.id)
        # the confirming pass is (first=false, last=true)
        g = prog.fn(d["once"])
        if g is not None:
            idx = {"is_first_iteration": flag_param_index(prog, g, "is_first_iteration"), "is_last_iteration": flag_param_index(prog, g, "is_last_iteration")}
            consts = []
            for bi, t in f.calls():
                if (t.get("resolved") or "") == d["once"] and None not in idx.values():
                    consts.append((const_int(t["args"][idx["is_first_iteration"]]), const_int(t["args"][idx["is_last_iteration"]])))
            run.check((0, 1) in consts, R, "%s|%s|confirming-flags" % (R, f.id), f.loc(),
                      "%s: the confirming pass runs with (is_first=false, is_last=true)" % f.id,
                      "%s: no pass with constant flags (false, true) — flag pairs found: %s" % (f.id, consts))
    # the pass count shown to the user is the main driver's return value, unchanged
    asm = prog.fn("asm::assemble::{closure#0}")
    if asm is not None:
        from rules_sym import deep
        found = []
        for bi, si, st in asm.stmts():
            if st["k"] != "assign" or not st["place"]["p"]:
                continue
            named = any(isinstance(pr, dict) and pr.get("name") == "iterations_taken" for pr in st["place"]["p"])
            if not named and st["place"]["p"] == ["deref"]:
                # the closure captured `assembly.iterations_taken` by reference
                named = "iterations_taken" in deep(asm, {"copy": {"l": st["place"]["l"], "p": []}}, 3)
            if named:
                rv = st["rv"]
                if rv["k"] == "agg" and rv.get("variant") == "Some":
                    found.append(deep(asm, rv["ops"][0], 4))
                elif rv["k"] == "use":
                    found.append(deep(asm, rv["op"], 4))
        found = [x for x in found if x != "None{}"]
        okc = len(found) == 1 and bool(re.fullmatch(r"(Some\{)?resolver::resolve_iteratively\(.*\)@Continue\.0\}?", found[0]))
        run.check(okc, R, R + "|reported-count", asm.loc(), "the reported number of passes is what resolve_iteratively returned",
                  "the reported number of passes is `%s`, not the return value of resolve_iteratively: it can exceed the budget" % (found[:2]))
    # who reads max_iterations
    allowed = set(spec["max_iterations_readers"])
    readers = set()
    for f in prog.real_fns():
        for bi, si, st in f.stmts():
            if st["k"] != "assign":
                continue
            from mir import rv_places
            for pl in rv_places(st["rv"]):
                if any(isinstance(pr, dict) and pr.get("name") == "max_iterations" for pr in pl["p"]):
                    readers.add(f.id)
        for bi, t in f.calls():
            for a in t["args"]:
                pl = op_place(a)
                if pl and any(isinstance(pr, dict) and pr.get("name") == "max_iterations" for pr in pl["p"]):
                    readers.add(f.id)
    for r_ in sorted(readers):
        run.check(r_ in allowed, R, "%s|reads-max_iterations|%s" % (R, r_), prog.fn(r_).loc(),
                  "%s reads max_iterations (audited reader)" % r_,
                  "%s reads max_iterations but is not an audited reader: the budget must only bound the number of passes, never influence a value" % r_)
    run.floor(R, "readers of max_iterations", len(readers), 3)
    # the nested driver of asm blocks: bounding ITS passes by the user's budget makes the budget part of the trajectory of the outer
    # iteration (a block that has not settled within N inner passes answers differently from one given N+1), so where a program
    # has several consistent states the budget selects among them
    inner = "asm::resolver::eval_asm::resolve_iteratively"
    g_in = prog.fn(inner)
    if g_in is not None:
        run.check(inner not in readers, R, "%s|inner-budget|%s" % (R, inner), g_in.loc(), "the asm block's own pass limit does not depend on the user's budget",
                  "the passes of an asm block are bounded by the user's iteration budget: the block answers `not settled` after N inner passes and `settled` with N+1, which steers the outer iteration, so the budget can select between two consistent states of a program")
    # assertions only in a last pass
    f = prog.fn("asm::resolver::assert::resolve_assert")
    if f is None:
        run.violation(R, R + "|assert|anchor", "-", "mechanism not found: resolve_assert")
    else:
        evals = [bi for bi, t in f.calls() if (t.get("resolved") or "").startswith("asm::resolver::eval::eval")]
        good = bool(evals) and all(edge_true_dominates(f, lambda dd: dd.split(" var:")[0].endswith(".is_last_iteration"), b) for b in evals)
        run.check(good, R, R + "|assert|last-only", f.loc(), "resolve_assert evaluates its condition only behind `is_last_iteration`",
                  "resolve_assert can evaluate (and fail) an assertion in a guessing pass: with a larger budget the same program could fail/succeed differently")


def fix5(run):
    """every candidate of an instruction is recomputed in every pass: the loop of resolve_instruction_matches runs
    over 0..matches.len(), evaluates each index, and leaves early only by propagating an error"""
    R = "FIX5"
    f = run.anchor(R, "instruction::resolve_instruction_matches")
    if f is None:
        return
    calls = [(bi, t) for bi, t in f.calls() if (t.get("resolved") or "").endswith("instruction::resolve_instruction_match")]
    if len(calls) != 1:
        run.violation(R, R + "|one-eval-site", f.loc(), "expected exactly one call to resolve_instruction_match in resolve_instruction_matches, found %d" % len(calls))
        return
    cb, ct = calls[0]
    # the loop header: `next()` call whose natural loop contains cb
    header = None
    for bi, t in f.calls():
        if (t.get("callee") or "") == "std::iter::Iterator::next":
            lp = natural_loop(f, bi)
            if lp and cb in lp:
                if header is None or len(lp) < len(header[1]):
                    header = (bi, lp, t)
    if header is None:
        run.violation(R, R + "|loop", f.loc(), "mechanism not found: loop around resolve_instruction_match")
        return
    hb, lp, ht = header
    ity = (ht.get("arg_tys") or [""])[0]
    run.check("std::ops::Range<usize>" in ity, R, R + "|range", f.loc(ht["span"]),
              "candidates are visited by a plain index range", "candidates are visited through `%s`, not a plain 0..matches.len() range: some may be skipped or reordered" % ity)
    # range bounds: 0 .. len(matches)
    rng_ok = False
    for bi, si, st in f.stmts():
        if st["k"] == "assign" and st["rv"]["k"] == "agg" and st["rv"].get("agg") == "adt" and st["rv"]["adt"].endswith("ops::Range"):
            a = const_int(st["rv"]["ops"][0])
            o = peel(f.origin_op(st["rv"]["ops"][1]))
            if a == 0 and o[0] == "call" and (o[1].get("callee") or "").endswith("::len"):
                d = describe_origin(f, f.origin_op(o[1]["args"][0]))
                if "matches" in d:
                    rng_ok = True
    run.check(rng_ok, R, R + "|range-bounds", f.loc(), "the range is 0..matches.len()", "the candidate range is not 0..matches.len()")
    # exits: only the exhausted edge and error propagation
    tb = ht["target"]
    none_t = None
    some_t = None
    blk = f.blocks[tb]
    if blk["term"]["k"] == "switch":
        for v, tg in blk["term"]["targets"]:
            if v == "0":
                none_t = tg
            else:
                some_t = tg
        if some_t is None:
            some_t = blk["term"]["otherwise"]
    bad = []
    for b in lp:
        for s in f.succs(b):
            if s in lp or (b == tb and s == none_t):
                continue
            if f.blocks[s]["term"]["k"] == "unreachable":
                continue
            # error propagation: the exit leads to a return of Err (from_residual) without rejoining
            reach = reach_from(f, s)
            is_err = any((f.blocks[x]["term"]["k"] == "call" and (f.blocks[x]["term"].get("callee") or "").endswith("from_residual")) for x in reach if x not in lp) and \
                not any(st["k"] == "assign" and st["place"]["l"] == 0 and st["rv"]["k"] == "agg" and st["rv"].get("variant") == "Ok" for x in reach for st in f.blocks[x]["stmts"])
            if not is_err:
                bad.append(f.blocks[b]["term"]["span"]["line"])
    run.check(not bad, R, R + "|no-early-exit", f.loc(), "the candidate loop is left only when exhausted or by propagating an error",
              "the candidate loop can be left early (line %s) without an error: candidates that were rejected on a guessed value would not be reconsidered with the final values" % sorted(set(bad)))
    # the evaluation lies on every path through the body
    if some_t is not None:
        seen = set()
        work = [some_t]
        skipped = False
        while work:
            x = work.pop()
            if x in seen or x == cb or x not in lp:
                continue
            seen.add(x)
            if x == hb:
                skipped = True
                break
            work.extend(f.succs(x))
        run.check(not skipped, R, R + "|every-index-evaluated", f.loc(ct["span"]), "every visited candidate is evaluated (no path around resolve_instruction_match)",
                  "an iteration of the candidate loop can skip resolve_instruction_match")


def first_pass_verdict(run, R="GATE"):
    """the static-value shortcut answers `Resolved` in the first pass without the comparison with the previous value; when the
    switch is off, the same item goes through that comparison and can answer `Unresolved` in that pass.  With a budget so
    small that the first pass is also the last, the verdict of the whole run then depends on the switch."""
    from rules_sym import deep
    prog = run.prog
    n = 0
    for f in prog.real_fns():
        if not f.id.startswith("asm::resolver::"):
            continue
        for b in sorted(f.reachable()):
            tt = f.blocks[b]["term"]
            if tt["k"] != "switch" or op_local(tt["discr"]) is None:
                continue
            if not deep(f, tt["discr"], 4).endswith(".optimize_statically_known"):
                continue
            ft = [tg for v, tg in tt["targets"] if v == "0"]
            if not ft:
                continue
            treg = T.dominated_region(f, tt["otherwise"], b)
            short = any(st["k"] == "assign" and st["place"]["p"] and isinstance(st["place"]["p"][-1], dict) and st["place"]["p"][-1].get("name") == "resolved" and const_int(st["rv"].get("op", {})) == 1
                        for x in treg for st in f.blocks[x]["stmts"] if st["k"] == "assign" and st["rv"]["k"] == "use")
            if not short:
                continue
            # is an `Unresolved` answer reachable when the switch is off?
            seen = set()
            work = [ft[0]]
            unres = False
            while work:
                x = work.pop()
                if x in seen:
                    continue
                seen.add(x)
                for st in f.blocks[x]["stmts"]:
                    if st["k"] == "assign" and st["place"]["l"] == 0 and st["rv"]["k"] == "agg" and st["rv"].get("variant") == "Ok" and st["rv"]["ops"] and deep(f, st["rv"]["ops"][0], 2) == "Unresolved{}":
                        unres = True
                work.extend(s_ for s_ in f.succs(x) if not f.blocks[s_]["cleanup"])
            # only when the first pass is concerned (the shortcut is tied to is_first_iteration) can a run-level verdict differ
            first = edge_true_dominates(f, lambda d: d.split(" var:")[0].endswith(".is_first_iteration"), [x for x in treg][0]) or any(
                deep(f, f.blocks[x]["term"]["discr"], 4).endswith(".is_first_iteration") for x in treg if f.blocks[x]["term"]["k"] == "switch" and op_local(f.blocks[x]["term"]["discr"]) is not None)
            if not first:
                continue
            n += 1
            ex = run.table("fix").get("first_pass_verdict_exempt", {})
            if unres and f.id in ex:
                run.exception(R, "%s|first-pass-verdict|%s" % (R, f.id), f.loc(tt.get("span")), "%s: %s" % (f.id, ex[f.id]))
                continue
            run.check(not unres, R, "%s|first-pass-verdict|%s" % (R, f.id), f.loc(tt.get("span")), "%s: the shortcut does not change the verdict of a pass" % f.id,
                      "%s answers `Resolved` in the first pass through the static-value shortcut, while with --debug-no-optimize-static the same item is compared with its placeholder and answers `Unresolved` in that pass: when the first pass is also the last (`-t 1`), the run succeeds with the switch on and fails to converge with it off" % f.id)
    run.count("first_pass_shortcuts", n)
