//! Positive controls: one deliberately bad example per zero-expected rule.
//! The checker must fire on each of these on every run.
#![allow(dead_code)]
use std::collections::HashMap;
use std::sync::atomic::{AtomicUsize, Ordering};

// DET4: mutable / interior-mutable statics
pub static mut COUNTER_MUT: usize = 0;
pub static COUNTER_ATOMIC: AtomicUsize = AtomicUsize::new(0);
pub static PLAIN: &str = "ok";

// DET3: clock, address exposure, atomics
pub fn det3_clock() -> u64 {
    std::time::Instant::now().elapsed().as_secs()
}
pub fn det3_addr(x: &u32) -> usize {
    x as *const u32 as usize
}
pub fn det3_atomic() -> usize {
    COUNTER_ATOMIC.fetch_add(1, Ordering::SeqCst)
}

// DET1: hash-ordered iteration that is observable
pub fn det1_push(m: &HashMap<String, u32>) -> Vec<String> {
    let mut out = Vec::new();
    for (k, _) in m {
        out.push(k.clone());
    }
    out
}
pub fn det1_first(m: &HashMap<String, u32>) -> Option<String> {
    for (k, _) in m.iter() {
        return Some(k.clone());
    }
    None
}
pub fn det1_unsorted_vec(m: &HashMap<String, u32>) -> Vec<&String> {
    m.keys().collect::<Vec<_>>()
}
// DET1 negative controls: must stay silent
pub fn det1_sorted(m: &HashMap<String, u32>) -> Vec<&String> {
    let mut v = m.keys().collect::<Vec<_>>();
    v.sort();
    v
}
pub fn det1_copy(m: &HashMap<String, u32>) -> HashMap<String, u32> {
    let mut o = HashMap::new();
    for (k, v) in m {
        o.insert(k.clone(), *v);
    }
    o
}

// DET2: Debug print of a hash container
pub fn det2_debug(m: &HashMap<String, u32>) -> String {
    format!("{:?}", m)
}
