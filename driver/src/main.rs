// casm-facts: rustc_private driver that serialises the type-checked MIR of the
// local crate as JSON facts for the python rule engine in /verif/lint.
//
// Used as RUSTC_WORKSPACE_WRAPPER under `cargo +nightly check`.  Crates whose
// name is not listed in CASM_FACTS_CRATES (default "customasm") are compiled
// normally.  One JSON file per rustc process is written with a single write to
// $CASM_FACTS_OUT/<crate>-<kind>-<pid>.json.
#![feature(rustc_private)]
extern crate rustc_abi;
extern crate rustc_driver;
extern crate rustc_hir;
extern crate rustc_interface;
extern crate rustc_middle;
extern crate rustc_span;

use rustc_driver::Compilation;
use rustc_hir::def::DefKind;
use rustc_hir::def_id::{DefId, LOCAL_CRATE};
use rustc_middle::mir::{
    AggregateKind, BinOp, Body, CastKind, Const, Operand, Place, PlaceElem, Rvalue,
    StatementKind, TerminatorKind,
};
use rustc_middle::ty::print::{with_no_trimmed_paths, with_no_visible_paths};
use rustc_middle::ty::{self, Instance, Ty, TyCtxt, TypingEnv};
use rustc_span::Span;
use std::fmt::Write as _;

fn esc(s: &str) -> String {
    let mut o = String::with_capacity(s.len() + 2);
    o.push('"');
    for c in s.chars() {
        match c {
            '"' => o.push_str("\\\""),
            '\\' => o.push_str("\\\\"),
            '\n' => o.push_str("\\n"),
            '\r' => o.push_str("\\r"),
            '\t' => o.push_str("\\t"),
            c if (c as u32) < 0x20 => {
                let _ = write!(o, "\\u{:04x}", c as u32);
            }
            c => o.push(c),
        }
    }
    o.push('"');
    o
}

fn opt_str(s: Option<String>) -> String {
    match s {
        Some(s) => esc(&s),
        None => "null".to_string(),
    }
}

struct Cx<'tcx> {
    tcx: TyCtxt<'tcx>,
    wanted: Vec<String>,
}

impl<'tcx> Cx<'tcx> {
    fn ty_str(&self, ty: Ty<'tcx>) -> String {
        with_no_trimmed_paths!(format!("{}", ty))
    }

    fn path(&self, did: DefId) -> String {
        // items of the analysed library seen from the binary crate: print the real definition
        // path (not the re-export the binary happens to see) so that ids agree between crates
        if !did.is_local() && self.wanted.iter().any(|w| w == self.tcx.crate_name(did.krate).as_str()) {
            return with_no_visible_paths!(with_no_trimmed_paths!(self.tcx.def_path_str(did)));
        }
        with_no_trimmed_paths!(self.tcx.def_path_str(did))
    }

    fn path_args(&self, did: DefId, args: ty::GenericArgsRef<'tcx>) -> String {
        if !did.is_local() && self.wanted.iter().any(|w| w == self.tcx.crate_name(did.krate).as_str()) {
            return with_no_visible_paths!(with_no_trimmed_paths!(self.tcx.def_path_str_with_args(did, args)));
        }
        with_no_trimmed_paths!(self.tcx.def_path_str_with_args(did, args))
    }

    fn span_json(&self, span: Span) -> String {
        let sm = self.tcx.sess.source_map();
        let exp = span.from_expansion();
        let mut mac = None;
        if exp {
            let ed = span.ctxt().outer_expn_data();
            mac = Some(format!("{}", ed.kind.descr()));
        }
        let cs = span.source_callsite();
        let lo = sm.lookup_char_pos(cs.lo());
        let hi = sm.lookup_char_pos(cs.hi());
        let file = format!("{}", lo.file.name.prefer_local_unconditionally());
        format!(
            "{{\"file\":{},\"line\":{},\"col\":{},\"eline\":{},\"ecol\":{},\"mac\":{}}}",
            esc(&file),
            lo.line,
            lo.col.0 + 1,
            hi.line,
            hi.col.0 + 1,
            opt_str(mac)
        )
    }

    fn place_json(&self, body: &Body<'tcx>, place: &Place<'tcx>) -> String {
        let mut projs = Vec::new();
        for (base, elem) in place.iter_projections() {
            let bty = base.ty(&body.local_decls, self.tcx);
            let s = match elem {
                PlaceElem::Deref => "\"deref\"".to_string(),
                PlaceElem::Field(f, fty) => {
                    let mut name = format!("{}", f.index());
                    if let ty::Adt(adt, _) = bty.ty.kind() {
                        let vi = bty.variant_index.unwrap_or(rustc_abi::FIRST_VARIANT);
                        if adt.is_enum() || adt.is_struct() || adt.is_union() {
                            if let Some(fd) = adt.variant(vi).fields.get(f) {
                                name = fd.name.to_string();
                            }
                        }
                    }
                    format!(
                        "{{\"f\":{},\"name\":{},\"ty\":{}}}",
                        f.index(),
                        esc(&name),
                        esc(&self.ty_str(fty))
                    )
                }
                PlaceElem::Index(l) => format!("{{\"idx\":{}}}", l.index()),
                PlaceElem::ConstantIndex { offset, from_end, .. } => {
                    format!("{{\"cidx\":{},\"from_end\":{}}}", offset, from_end)
                }
                PlaceElem::Subslice { from, to, from_end } => {
                    format!("{{\"sub\":[{},{}],\"from_end\":{}}}", from, to, from_end)
                }
                PlaceElem::Downcast(name, vi) => {
                    let n = match name {
                        Some(n) => n.to_string(),
                        None => format!("{}", vi.index()),
                    };
                    format!("{{\"downcast\":{},\"vi\":{}}}", esc(&n), vi.index())
                }
                PlaceElem::OpaqueCast(_) => "\"opaque\"".to_string(),
                PlaceElem::UnwrapUnsafeBinder(_) => "\"unwrap_binder\"".to_string(),
            };
            projs.push(s);
        }
        format!("{{\"l\":{},\"p\":[{}]}}", place.local.index(), projs.join(","))
    }

    fn const_json(&self, body: &Body<'tcx>, did: DefId, c: &Const<'tcx>) -> String {
        let ty = c.ty();
        let mut s = format!("{{\"const\":{}", esc(&with_no_trimmed_paths!(format!("{}", c))));
        let _ = write!(s, ",\"ty\":{}", esc(&self.ty_str(ty)));
        match ty.kind() {
            ty::FnDef(fd, ga) => {
                let _ = write!(s, ",\"fn\":{}", esc(&self.path(*fd)));
                let _ = write!(
                    s,
                    ",\"fn_full\":{}",
                    esc(&with_no_trimmed_paths!(self.tcx.def_path_str_with_args(*fd, ga)))
                );
            }
            ty::Bool | ty::Char | ty::Int(_) | ty::Uint(_) => {
                let tenv = TypingEnv::post_analysis(self.tcx, did);
                if let Some(si) = c.try_eval_scalar_int(self.tcx, tenv) {
                    let size = si.size();
                    let bits = si.to_bits(size);
                    let v: i128 = if matches!(ty.kind(), ty::Int(_)) {
                        size.sign_extend(bits)
                    } else {
                        bits as i128
                    };
                    let _ = write!(s, ",\"int\":\"{}\"", v);
                }
            }
            _ => {}
        }
        // a reference to a static: name the static
        if let Const::Val(rustc_middle::mir::ConstValue::Scalar(rustc_middle::mir::interpret::Scalar::Ptr(ptr, _)), _) = c {
            let aid = ptr.provenance.alloc_id();
            if let Some(rustc_middle::mir::interpret::GlobalAlloc::Static(sd)) = self.tcx.try_get_global_alloc(aid) {
                let _ = write!(s, ",\"static\":{}", esc(&self.path(sd)));
            }
        }
        let _ = body;
        s.push('}');
        s
    }

    fn operand_json(&self, body: &Body<'tcx>, did: DefId, op: &Operand<'tcx>) -> String {
        match op {
            Operand::Copy(p) => format!("{{\"copy\":{}}}", self.place_json(body, p)),
            Operand::Move(p) => format!("{{\"move\":{}}}", self.place_json(body, p)),
            Operand::Constant(c) => self.const_json(body, did, &c.const_),
            #[allow(unreachable_patterns)]
            _ => format!("{{\"other\":{}}}", esc(&format!("{:?}", op))),
        }
    }

    fn variants_json(&self, ty: Ty<'tcx>) -> String {
        if let ty::Adt(adt, _) = ty.kind() {
            if adt.is_enum() {
                let mut v = Vec::new();
                for (vi, d) in adt.discriminants(self.tcx) {
                    v.push(format!("\"{}\":{}", d.val, esc(&adt.variant(vi).name.to_string())));
                }
                return format!("{{{}}}", v.join(","));
            }
        }
        "null".to_string()
    }

    fn rvalue_json(&self, body: &Body<'tcx>, did: DefId, rv: &Rvalue<'tcx>) -> String {
        match rv {
            Rvalue::Use(op, ..) => format!("{{\"k\":\"use\",\"op\":{}}}", self.operand_json(body, did, op)),
            Rvalue::Repeat(op, n) => format!(
                "{{\"k\":\"repeat\",\"op\":{},\"n\":{}}}",
                self.operand_json(body, did, op),
                esc(&format!("{}", n))
            ),
            Rvalue::Ref(_, bk, p) => format!(
                "{{\"k\":\"ref\",\"mut\":{},\"place\":{}}}",
                matches!(bk, rustc_middle::mir::BorrowKind::Mut { .. }),
                self.place_json(body, p)
            ),
            Rvalue::RawPtr(_, p) => format!("{{\"k\":\"rawptr\",\"place\":{}}}", self.place_json(body, p)),
            Rvalue::Cast(kind, op, ty) => {
                let k = match kind {
                    CastKind::PointerExposeProvenance => "expose".to_string(),
                    CastKind::PointerWithExposedProvenance => "with_exposed".to_string(),
                    CastKind::PointerCoercion(pc, _) => format!("coerce:{:?}", pc),
                    CastKind::IntToInt => "int2int".to_string(),
                    CastKind::FloatToInt => "float2int".to_string(),
                    CastKind::FloatToFloat => "float2float".to_string(),
                    CastKind::IntToFloat => "int2float".to_string(),
                    CastKind::PtrToPtr => "ptr2ptr".to_string(),
                    CastKind::FnPtrToPtr => "fnptr2ptr".to_string(),
                    CastKind::Transmute => "transmute".to_string(),
                    #[allow(unreachable_patterns)]
                    _ => format!("{:?}", kind),
                };
                let from = op.ty(&body.local_decls, self.tcx);
                format!(
                    "{{\"k\":\"cast\",\"kind\":{},\"op\":{},\"from\":{},\"ty\":{}}}",
                    esc(&k),
                    self.operand_json(body, did, op),
                    esc(&self.ty_str(from)),
                    esc(&self.ty_str(*ty))
                )
            }
            Rvalue::BinaryOp(op, b) => {
                let (l, r) = &**b;
                let lt = l.ty(&body.local_decls, self.tcx);
                format!(
                    "{{\"k\":\"binop\",\"op\":{},\"l\":{},\"r\":{},\"lty\":{}}}",
                    esc(&binop_name(*op)),
                    self.operand_json(body, did, l),
                    self.operand_json(body, did, r),
                    esc(&self.ty_str(lt))
                )
            }
            Rvalue::UnaryOp(op, x) => format!(
                "{{\"k\":\"unop\",\"op\":{},\"x\":{}}}",
                esc(&format!("{:?}", op)),
                self.operand_json(body, did, x)
            ),
            Rvalue::Discriminant(p) => {
                let pty = p.ty(&body.local_decls, self.tcx).ty;
                format!(
                    "{{\"k\":\"discr\",\"place\":{},\"adt\":{},\"variants\":{}}}",
                    self.place_json(body, p),
                    esc(&self.ty_str(pty)),
                    self.variants_json(pty)
                )
            }
            Rvalue::Aggregate(kind, ops) => {
                let opsj: Vec<String> = ops.iter().map(|o| self.operand_json(body, did, o)).collect();
                let head = match &**kind {
                    AggregateKind::Array(t) => format!("\"agg\":\"array\",\"elem\":{}", esc(&self.ty_str(*t))),
                    AggregateKind::Tuple => "\"agg\":\"tuple\"".to_string(),
                    AggregateKind::Adt(adid, vi, _, _, active) => {
                        let adt = self.tcx.adt_def(*adid);
                        let var = adt.variant(*vi);
                        let fields: Vec<String> = match active {
                            Some(f) => vec![esc(&var.fields[*f].name.to_string())],
                            None => var.fields.iter().map(|f| esc(&f.name.to_string())).collect(),
                        };
                        format!(
                            "\"agg\":\"adt\",\"adt\":{},\"variant\":{},\"fields\":[{}]",
                            esc(&self.path(*adid)),
                            esc(&var.name.to_string()),
                            fields.join(",")
                        )
                    }
                    AggregateKind::Closure(cd, _) => format!("\"agg\":\"closure\",\"closure\":{}", esc(&self.path(*cd))),
                    AggregateKind::Coroutine(cd, _) => format!("\"agg\":\"coroutine\",\"closure\":{}", esc(&self.path(*cd))),
                    AggregateKind::CoroutineClosure(cd, _) => {
                        format!("\"agg\":\"coroutine_closure\",\"closure\":{}", esc(&self.path(*cd)))
                    }
                    AggregateKind::RawPtr(..) => "\"agg\":\"rawptr\"".to_string(),
                };
                format!("{{\"k\":\"agg\",{},\"ops\":[{}]}}", head, opsj.join(","))
            }
            Rvalue::CopyForDeref(p) => format!(
                "{{\"k\":\"use\",\"op\":{{\"copy\":{}}},\"deref_copy\":true}}",
                self.place_json(body, p)
            ),
            Rvalue::ThreadLocalRef(d) => format!("{{\"k\":\"tls\",\"def\":{}}}", esc(&self.path(*d))),
            #[allow(unreachable_patterns)]
            _ => format!("{{\"k\":\"other\",\"dbg\":{}}}", esc(&format!("{:?}", rv))),
        }
    }

    fn body_json(&self, did: DefId, body: &Body<'tcx>, out: &mut String) {
        let tcx = self.tcx;
        let tenv = TypingEnv::post_analysis(tcx, did);
        // locals
        out.push_str("\"arg_count\":");
        let _ = write!(out, "{}", body.arg_count);
        out.push_str(",\"locals\":[");
        let mut names: Vec<Option<String>> = vec![None; body.local_decls.len()];
        let mut dbg = Vec::new();
        for v in &body.var_debug_info {
            match &v.value {
                rustc_middle::mir::VarDebugInfoContents::Place(p) => {
                    if p.projection.is_empty() && names[p.local.index()].is_none() {
                        names[p.local.index()] = Some(v.name.to_string());
                    }
                    dbg.push(format!(
                        "{{\"name\":{},\"place\":{}}}",
                        esc(&v.name.to_string()),
                        self.place_json(body, p)
                    ));
                }
                rustc_middle::mir::VarDebugInfoContents::Const(c) => {
                    dbg.push(format!(
                        "{{\"name\":{},\"const\":{}}}",
                        esc(&v.name.to_string()),
                        esc(&format!("{}", c.const_))
                    ));
                }
            }
        }
        for (i, (l, d)) in body.local_decls.iter_enumerated().enumerate() {
            if i > 0 {
                out.push(',');
            }
            let _ = write!(
                out,
                "{{\"ty\":{},\"name\":{}}}",
                esc(&self.ty_str(d.ty)),
                opt_str(names[l.index()].clone())
            );
        }
        out.push_str("],\"debug\":[");
        out.push_str(&dbg.join(","));
        out.push_str("],\"blocks\":[");
        for (bi, bb) in body.basic_blocks.iter_enumerated() {
            if bi.index() > 0 {
                out.push(',');
            }
            let _ = write!(out, "{{\"cleanup\":{},\"stmts\":[", bb.is_cleanup);
            let mut first = true;
            for st in &bb.statements {
                let s = match &st.kind {
                    StatementKind::Assign(b) => {
                        let (pl, rv) = &**b;
                        Some(format!(
                            "{{\"k\":\"assign\",\"place\":{},\"rv\":{},\"span\":{}}}",
                            self.place_json(body, pl),
                            self.rvalue_json(body, did, rv),
                            self.span_json(st.source_info.span)
                        ))
                    }
                    StatementKind::SetDiscriminant { place, variant_index } => Some(format!(
                        "{{\"k\":\"setdiscr\",\"place\":{},\"vi\":{},\"span\":{}}}",
                        self.place_json(body, place),
                        variant_index.index(),
                        self.span_json(st.source_info.span)
                    )),
                    _ => None,
                };
                if let Some(s) = s {
                    if !first {
                        out.push(',');
                    }
                    first = false;
                    out.push_str(&s);
                }
            }
            out.push_str("],\"term\":");
            let term = bb.terminator();
            let span = self.span_json(term.source_info.span);
            let t = match &term.kind {
                TerminatorKind::Goto { target } => format!("{{\"k\":\"goto\",\"target\":{}", target.index()),
                TerminatorKind::SwitchInt { discr, targets } => {
                    let dty = discr.ty(&body.local_decls, tcx);
                    let t: Vec<String> = targets.iter().map(|(v, b)| format!("[\"{}\",{}]", v, b.index())).collect();
                    format!(
                        "{{\"k\":\"switch\",\"discr\":{},\"discr_ty\":{},\"targets\":[{}],\"otherwise\":{}",
                        self.operand_json(body, did, discr),
                        esc(&self.ty_str(dty)),
                        t.join(","),
                        targets.otherwise().index()
                    )
                }
                TerminatorKind::Return => "{\"k\":\"return\"".to_string(),
                TerminatorKind::Unreachable => "{\"k\":\"unreachable\"".to_string(),
                TerminatorKind::UnwindResume => "{\"k\":\"resume\"".to_string(),
                TerminatorKind::UnwindTerminate(_) => "{\"k\":\"terminate\"".to_string(),
                TerminatorKind::Drop { place, target, .. } => format!(
                    "{{\"k\":\"drop\",\"place\":{},\"target\":{}",
                    self.place_json(body, place),
                    target.index()
                ),
                TerminatorKind::Assert { cond, expected, msg, target, .. } => {
                    let kind = assert_kind(msg);
                    format!(
                        "{{\"k\":\"assert\",\"cond\":{},\"expected\":{},\"msg\":{},\"target\":{}",
                        self.operand_json(body, did, cond),
                        expected,
                        esc(&kind),
                        target.index()
                    )
                }
                TerminatorKind::Call { func, args, destination, target, fn_span, .. } => {
                    let fty = func.ty(&body.local_decls, tcx);
                    let mut s = String::from("{\"k\":\"call\"");
                    if let ty::FnDef(cd, ga) = fty.kind() {
                        let _ = write!(s, ",\"callee\":{}", esc(&self.path(*cd)));
                        let _ = write!(s, ",\"callee_full\":{}", esc(&self.path_args(*cd, ga)));
                        let gas: Vec<String> = ga.iter().map(|a| esc(&with_no_trimmed_paths!(format!("{}", a)))).collect();
                        let _ = write!(s, ",\"gargs\":[{}]", gas.join(","));
                        let _ = write!(s, ",\"callee_local\":{}", cd.is_local());
                        if let Some(tr) = tcx.trait_of_assoc(*cd) {
                            let _ = write!(s, ",\"trait\":{}", esc(&self.path(tr)));
                        }
                        match Instance::try_resolve(tcx, tenv, *cd, ga) {
                            Ok(Some(inst)) => {
                                let rd = inst.def_id();
                                let kind = match inst.def {
                                    ty::InstanceKind::Item(_) => "item",
                                    ty::InstanceKind::Virtual(..) => "virtual",
                                    ty::InstanceKind::Intrinsic(_) => "intrinsic",
                                    ty::InstanceKind::ClosureOnceShim { .. } => "closure_once",
                                    ty::InstanceKind::FnPtrShim(..) => "fnptr_shim",
                                    ty::InstanceKind::ReifyShim(..) => "reify",
                                    ty::InstanceKind::DropGlue(..) => "drop_glue",
                                    ty::InstanceKind::CloneShim(..) => "clone_shim",
                                    _ => "other",
                                };
                                let _ = write!(s, ",\"resolved\":{}", esc(&self.path(rd)));
                                let _ = write!(s, ",\"resolved_full\":{}", esc(&self.path_args(rd, inst.args)));
                                let _ = write!(s, ",\"resolved_kind\":\"{}\"", kind);
                                let _ = write!(s, ",\"resolved_local\":{}", rd.is_local());
                            }
                            _ => {
                                s.push_str(",\"resolved\":null");
                            }
                        }
                    } else {
                        let _ = write!(s, ",\"callee\":null,\"fn_op\":{}", self.operand_json(body, did, func));
                        let _ = write!(s, ",\"fn_ty\":{}", esc(&self.ty_str(fty)));
                    }
                    let a: Vec<String> = args.iter().map(|x| self.operand_json(body, did, &x.node)).collect();
                    let aty: Vec<String> = args
                        .iter()
                        .map(|x| esc(&self.ty_str(x.node.ty(&body.local_decls, tcx))))
                        .collect();
                    let _ = write!(s, ",\"args\":[{}],\"arg_tys\":[{}]", a.join(","), aty.join(","));
                    let _ = write!(s, ",\"dest\":{}", self.place_json(body, destination));
                    match target {
                        Some(t) => {
                            let _ = write!(s, ",\"target\":{}", t.index());
                        }
                        None => s.push_str(",\"target\":null"),
                    }
                    let _ = write!(s, ",\"fn_span\":{}", self.span_json(*fn_span));
                    s
                }
                TerminatorKind::FalseEdge { real_target, .. } => format!("{{\"k\":\"goto\",\"target\":{}", real_target.index()),
                TerminatorKind::FalseUnwind { real_target, .. } => format!("{{\"k\":\"goto\",\"target\":{}", real_target.index()),
                other => format!("{{\"k\":\"other\",\"dbg\":{}", esc(&format!("{:?}", other))),
            };
            out.push_str(&t);
            out.push_str(",\"span\":");
            out.push_str(&span);
            out.push_str("}}");
        }
        out.push(']');
    }
}

fn binop_name(op: BinOp) -> String {
    format!("{:?}", op)
}

fn assert_kind<'tcx>(msg: &rustc_middle::mir::AssertKind<Operand<'tcx>>) -> String {
    use rustc_middle::mir::AssertKind::*;
    match msg {
        BoundsCheck { .. } => "BoundsCheck".to_string(),
        Overflow(op, ..) => format!("Overflow({:?})", op),
        OverflowNeg(_) => "OverflowNeg".to_string(),
        DivisionByZero(_) => "DivisionByZero".to_string(),
        RemainderByZero(_) => "RemainderByZero".to_string(),
        other => {
            let s = format!("{:?}", other);
            s.split('(').next().unwrap_or("").split(' ').next().unwrap_or("").to_string()
        }
    }
}

struct Cb;

impl rustc_driver::Callbacks for Cb {
    fn after_analysis<'tcx>(&mut self, _c: &rustc_interface::interface::Compiler, tcx: TyCtxt<'tcx>) -> Compilation {
        let krate = tcx.crate_name(LOCAL_CRATE).to_string();
        let wanted = std::env::var("CASM_FACTS_CRATES").unwrap_or_else(|_| "customasm".to_string());
        if !wanted.split(',').any(|w| w == krate) {
            return Compilation::Continue;
        }
        let outdir = match std::env::var("CASM_FACTS_OUT") {
            Ok(d) => d,
            Err(_) => return Compilation::Continue,
        };
        let cx = Cx { tcx, wanted: wanted.split(',').map(|s| s.to_string()).collect() };
        let is_test = tcx.sess.opts.test;
        let ctypes: Vec<String> = tcx.crate_types().iter().map(|c| format!("{:?}", c)).collect();
        let ctype = if ctypes.iter().any(|c| c.contains("Executable")) { "bin" } else { "lib" };
        let mut out = String::with_capacity(16 << 20);
        let _ = write!(
            out,
            "{{\"crate\":{},\"crate_type\":\"{}\",\"is_test\":{},\"debug_assertions\":{},\"overflow_checks\":{},\"fns\":[",
            esc(&krate),
            ctype,
            is_test,
            tcx.sess.opts.debug_assertions,
            tcx.sess.overflow_checks()
        );
        let mut nf = 0usize;
        for ldid in tcx.mir_keys(()) {
            let did = ldid.to_def_id();
            let kind = tcx.def_kind(did);
            let (kname, body): (&str, &Body<'tcx>) = match kind {
                DefKind::Fn => ("Fn", tcx.optimized_mir(did)),
                DefKind::AssocFn => ("AssocFn", tcx.optimized_mir(did)),
                DefKind::Closure => ("Closure", tcx.optimized_mir(did)),
                DefKind::Static { .. } => ("Static", tcx.mir_for_ctfe(did)),
                DefKind::Const { .. } => ("Const", tcx.mir_for_ctfe(did)),
                DefKind::AssocConst { .. } => ("AssocConst", tcx.mir_for_ctfe(did)),
                _ => continue,
            };
            let mut bodies: Vec<(String, &Body<'tcx>)> = vec![(cx.path(did), body)];
            if matches!(kind, DefKind::Fn | DefKind::AssocFn | DefKind::Closure) {
                let proms = tcx.promoted_mir(did);
                for (pi, pb) in proms.iter_enumerated() {
                    bodies.push((format!("{}::{{promoted#{}}}", cx.path(did), pi.index()), pb));
                }
            }
            for (bi, (name, b)) in bodies.iter().enumerate() {
                if nf > 0 {
                    out.push(',');
                }
                nf += 1;
                let _ = write!(out, "{{\"id\":{},\"kind\":\"{}\"", esc(name), if bi == 0 { kname } else { "Promoted" });
                let _ = write!(out, ",\"owner\":{}", esc(&cx.path(did)));
                let _ = write!(out, ",\"span\":{}", cx.span_json(tcx.def_span(did)));
                let bspan = b.span;
                let _ = write!(out, ",\"body_span\":{}", cx.span_json(bspan));
                let rty = b.local_decls[rustc_middle::mir::RETURN_PLACE].ty;
                let _ = write!(out, ",\"ret\":{}", esc(&cx.ty_str(rty)));
                if matches!(kind, DefKind::AssocFn) {
                    if let Some(imp) = tcx.impl_of_assoc(did) {
                        let self_ty = tcx.type_of(imp).instantiate_identity().skip_norm_wip();
                        let _ = write!(out, ",\"impl_self\":{}", esc(&cx.ty_str(self_ty)));
                        if let Some(tr) = tcx.impl_opt_trait_ref(imp) {
                            let tr = tr.instantiate_identity().skip_norm_wip();
                            let _ = write!(out, ",\"impl_trait\":{}", esc(&cx.path(tr.def_id)));
                        }
                    }
                }
                if matches!(kind, DefKind::Closure) {
                    let parent = tcx.typeck_root_def_id(did);
                    let _ = write!(out, ",\"root\":{}", esc(&cx.path(parent)));
                    let _ = write!(out, ",\"parent\":{}", esc(&cx.path(tcx.parent(did))));
                }
                if let DefKind::Static { mutability, .. } = kind {
                    let sty = tcx.type_of(did).instantiate_identity().skip_norm_wip();
                    let tenv = TypingEnv::post_analysis(tcx, did);
                    let _ = write!(
                        out,
                        ",\"static_mut\":{},\"static_ty\":{},\"freeze\":{}",
                        matches!(mutability, rustc_hir::Mutability::Mut),
                        esc(&cx.ty_str(sty)),
                        sty.is_freeze(tcx, tenv)
                    );
                }
                out.push(',');
                cx.body_json(did, b, &mut out);
                out.push('}');
            }
        }
        out.push_str("],\"adts\":[");
        let mut na = 0;
        for ld in tcx.hir_crate_items(()).definitions() {
            let did = ld.to_def_id();
            if !matches!(tcx.def_kind(did), DefKind::Struct | DefKind::Enum) {
                continue;
            }
            let adt = tcx.adt_def(did);
            if na > 0 {
                out.push(',');
            }
            na += 1;
            let _ = write!(out, "{{\"id\":{},\"is_enum\":{},\"span\":{},\"variants\":[", esc(&cx.path(did)), adt.is_enum(), cx.span_json(tcx.def_span(did)));
            let discrs: Vec<String> = if adt.is_enum() {
                adt.discriminants(tcx).map(|(_, d)| format!("{}", d.val)).collect()
            } else {
                vec!["0".to_string()]
            };
            for (i, v) in adt.variants().iter().enumerate() {
                if i > 0 {
                    out.push(',');
                }
                let fields: Vec<String> = v
                    .fields
                    .iter()
                    .map(|f| {
                        let fty = tcx.type_of(f.did).instantiate_identity().skip_norm_wip();
                        format!("{{\"name\":{},\"ty\":{}}}", esc(&f.name.to_string()), esc(&cx.ty_str(fty)))
                    })
                    .collect();
                let _ = write!(
                    out,
                    "{{\"name\":{},\"discr\":\"{}\",\"fields\":[{}]}}",
                    esc(&v.name.to_string()),
                    discrs.get(i).cloned().unwrap_or_default(),
                    fields.join(",")
                );
            }
            out.push_str("]}");
        }
        out.push_str("]}");
        let fname = format!(
            "{}/{}-{}{}-{}.json",
            outdir,
            krate,
            ctype,
            if is_test { "-test" } else { "" },
            std::process::id()
        );
        if let Err(e) = std::fs::write(&fname, out) {
            eprintln!("casm-facts: cannot write {}: {}", fname, e);
            std::process::exit(101);
        }
        let _ = nf;
        Compilation::Continue
    }
}

fn main() {
    let mut args: Vec<String> = std::env::args().collect();
    // RUSTC_WORKSPACE_WRAPPER passes the real rustc path as argv[1]
    if args.len() > 1 && (args[1].ends_with("rustc") || args[1].contains("/rustc")) {
        args.remove(1);
    }
    rustc_driver::run_compiler(&args, &mut Cb);
}
